//! Tags and subsystems (C20).
use crate::{args_bytes, hex};
use mpd_client::{tag::Tag, client::Subsystem};
use std::collections::hash_map::DefaultHasher;
use std::hash::{Hash, Hasher};

fn named_tags() -> Vec<(&'static str, Tag)> {
    vec![("Album", Tag::Album), ("AlbumArtist", Tag::AlbumArtist), ("AlbumArtistSort", Tag::AlbumArtistSort), ("AlbumSort", Tag::AlbumSort),
         ("Artist", Tag::Artist), ("ArtistSort", Tag::ArtistSort), ("Comment", Tag::Comment), ("Composer", Tag::Composer),
         ("ComposerSort", Tag::ComposerSort), ("Conductor", Tag::Conductor), ("Date", Tag::Date), ("Disc", Tag::Disc), ("Ensemble", Tag::Ensemble),
         ("Genre", Tag::Genre), ("Grouping", Tag::Grouping), ("Label", Tag::Label), ("Location", Tag::Location), ("Movement", Tag::Movement),
         ("MovementNumber", Tag::MovementNumber), ("MusicBrainzArtistId", Tag::MusicBrainzArtistId), ("MusicBrainzRecordingId", Tag::MusicBrainzRecordingId),
         ("MusicBrainzReleaseArtistId", Tag::MusicBrainzReleaseArtistId), ("MusicBrainzReleaseId", Tag::MusicBrainzReleaseId),
         ("MusicBrainzTrackId", Tag::MusicBrainzTrackId), ("MusicBrainzWorkId", Tag::MusicBrainzWorkId), ("Name", Tag::Name),
         ("OriginalDate", Tag::OriginalDate), ("Performer", Tag::Performer), ("Title", Tag::Title), ("Track", Tag::Track), ("Work", Tag::Work)]
}
pub fn tag_of(spec: &str) -> Tag {
    if let Some(h) = spec.strip_prefix("other:") {
        return Tag::Other(String::from_utf8(args_bytes(&[h.to_string()])[0].clone()).unwrap().into());
    }
    named_tags().into_iter().find(|(n, _)| *n == spec).expect("variant").1
}
fn variant_of(t: &Tag) -> String {
    match t { Tag::Other(s) => format!("other:{}", hex(s.as_bytes())),
              t => named_tags().into_iter().find(|(_, v)| std::mem::discriminant(v) == std::mem::discriminant(t)).unwrap().0.to_string() }
}
fn h<T: Hash>(t: &T) -> u64 { let mut s = DefaultHasher::new(); t.hash(&mut s); s.finish() }
fn name_of(t: &Tag) -> Vec<u8> {
    let mut b = bytes::BytesMut::new();
    mpd_protocol::command::Argument::render(t, &mut b);
    b.to_vec()
}

/// tag pair <a> <b> | tag parse <hex>
pub fn tag(a: &[String]) {
    match a[0].as_str() {
        "pair" => {
            let (x, y) = (tag_of(&a[1]), tag_of(&a[2]));
            println!("eq_xy={}", x == y);
            println!("eq_yx={}", y == x);
            println!("cmp_xy={:?}", x.cmp(&y));
            println!("cmp_yx={:?}", y.cmp(&x));
            println!("pcmp_xy={:?}", x.partial_cmp(&y));
            println!("pcmp_yx={:?}", y.partial_cmp(&x));
            println!("lt_xy={}", x < y);
            println!("hash_eq={}", h(&x) == h(&y));
            println!("name_x={}", hex(&name_of(&x)));
            println!("name_y={}", hex(&name_of(&y)));
        }
        "parse" => {
            let raw = String::from_utf8(args_bytes(&a[1..2])[0].clone()).unwrap();
            match Tag::try_from(raw.as_str()) {
                Ok(t) => { println!("ok={}", variant_of(&t)); println!("name={}", hex(&name_of(&t))); }
                Err(e) => println!("err={:?}", e),
            }
        }
        _ => panic!("tag subcommand"),
    }
}

fn named_subsystems() -> Vec<(&'static str, Subsystem)> {
    vec![("Database", Subsystem::Database), ("Message", Subsystem::Message), ("Mixer", Subsystem::Mixer), ("Options", Subsystem::Options),
         ("Output", Subsystem::Output), ("Partition", Subsystem::Partition), ("Player", Subsystem::Player), ("Queue", Subsystem::Queue),
         ("Sticker", Subsystem::Sticker), ("StoredPlaylist", Subsystem::StoredPlaylist), ("Subscription", Subsystem::Subscription),
         ("Update", Subsystem::Update), ("Neighbor", Subsystem::Neighbor), ("Mount", Subsystem::Mount)]
}
fn subsys_of(spec: &str) -> Subsystem {
    if let Some(hx) = spec.strip_prefix("other:") {
        return Subsystem::Other(String::from_utf8(args_bytes(&[hx.to_string()])[0].clone()).unwrap().into());
    }
    named_subsystems().into_iter().find(|(n, _)| *n == spec).expect("variant").1
}
fn subsys_variant(t: &Subsystem) -> String {
    match t { Subsystem::Other(s) => format!("other:{}", hex(s.as_bytes())),
              t => named_subsystems().into_iter().find(|(_, v)| std::mem::discriminant(v) == std::mem::discriminant(t)).unwrap().0.to_string() }
}

/// subsys pair <a> <b> | subsys event <hex name> (drives the real client: idle reply `changed: <name>`)
pub fn subsys(a: &[String]) {
    match a[0].as_str() {
        "pair" => {
            let (x, y) = (subsys_of(&a[1]), subsys_of(&a[2]));
            println!("eq_xy={}", x == y);
            println!("eq_yx={}", y == x);
            println!("hash_eq={}", h(&x) == h(&y));
            println!("name_x={}", hex(x.as_str().as_bytes()));
            println!("name_y={}", hex(y.as_str().as_bytes()));
        }
        "event" => {
            let name = args_bytes(&a[1..2])[0].clone();
            let rt = tokio::runtime::Builder::new_current_thread().enable_all().start_paused(true).build().unwrap();
            rt.block_on(async move {
                use tokio::io::{AsyncReadExt, AsyncWriteExt};
                let (cl, mut srv) = tokio::io::duplex(4096);
                let server = tokio::spawn(async move {
                    srv.write_all(b"OK MPD 0.23.5\n").await.unwrap();
                    let mut buf = [0u8; 64];
                    let n = srv.read(&mut buf).await.unwrap();
                    assert_eq!(&buf[..n], b"idle\n");
                    let mut reply = b"changed: ".to_vec(); reply.extend_from_slice(&name); reply.extend_from_slice(b"\nOK\n");
                    srv.write_all(&reply).await.unwrap();
                    let _ = srv.read(&mut buf).await;
                    srv
                });
                let (client, mut events) = mpd_client::Client::connect(cl).await.unwrap();
                match tokio::time::timeout(std::time::Duration::from_secs(5), events.next()).await {
                    Ok(Some(mpd_client::client::ConnectionEvent::SubsystemChange(s))) => {
                        println!("event={}", subsys_variant(&s)); println!("name={}", hex(s.as_str().as_bytes()));
                    }
                    other => println!("event_other={:?}", other.map(|o| o.is_some())),
                }
                drop(client); let _ = server.await;
            });
        }
        _ => panic!("subsys subcommand"),
    }
}

/// filter <postfix program>: `leaf <tag> <op> <hex value>` | `exists <tag>` | `absent <tag>` | `not` | `and`
/// prints the wire bytes of `find <filter>`.
pub fn filter(a: &[String]) {
    use mpd_client::filter::{Filter, Operator};
    let mut st: Vec<Filter> = Vec::new();
    let mut i = 0;
    // `pre`: every intermediate filter is rendered once by reference and cloned before it is used further
    let pre = a.first().map(|s| s == "pre").unwrap_or(false);
    if pre { i = 1; }
    while i < a.len() {
        if pre { if let Some(f) = st.pop() { let _ = mpd_protocol::command::Command::new("x").argument(&f); st.push(f.clone()); } }
        match a[i].as_str() {
            "leaf" => {
                let op = match a[i + 2].as_str() { "Equal" => Operator::Equal, "NotEqual" => Operator::NotEqual, "Contain" => Operator::Contain,
                                                   "Match" => Operator::Match, "NotMatch" => Operator::NotMatch, _ => panic!("op") };
                let v = String::from_utf8(args_bytes(&a[i + 3..i + 4])[0].clone()).unwrap();
                st.push(Filter::new(tag_of(&a[i + 1]), op, v)); i += 4;
            }
            "exists" => { st.push(Filter::tag_exists(tag_of(&a[i + 1]))); i += 2; }
            "absent" => { st.push(Filter::tag_absent(tag_of(&a[i + 1]))); i += 2; }
            "not" => { let f = st.pop().unwrap(); st.push(f.negate()); i += 1; }
            "and" => { let r = st.pop().unwrap(); let l = st.pop().unwrap(); st.push(l.and(r)); i += 1; }
            _ => panic!("filter op"),
        }
    }
    let mut f = st.pop().unwrap();
    if pre { let _ = mpd_protocol::command::Command::new("x").argument(&f); f = f.clone(); }
    let cmd = mpd_protocol::command::Command::new("find").argument(f);
    let mut c = mpd_protocol::Connection::connect(crate::Pipe { segs: vec![b"OK MPD 0.23.5\n".to_vec()], next: 0, out: Vec::new(), reads: 0 }).unwrap();
    c.send(cmd).unwrap();
    println!("wire={}", hex(&c.into_inner().out));
}
