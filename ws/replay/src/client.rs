//! Client schedules (C01, C04, C05, C08, C17, C18 password) on the real tokio runtime (current thread, paused time).
//! client <callers: `cmd:ca;cmd:cb|list:la,fb`> <password or -> <verdict> <art: size,limit,source,mime or -> <steps...>
//! The main future plays scheduler, callers and the simulated MPD server; the run loop is the task Client::connect spawns.
use std::{cell::RefCell, collections::VecDeque, future::Future, io, pin::Pin, rc::Rc, sync::{atomic::{AtomicBool, Ordering}, Arc},
          task::{Context, Poll, RawWaker, RawWakerVTable, Waker}, time::Duration};
use tokio::io::{AsyncRead, AsyncWrite, AsyncWriteExt, DuplexStream, ReadBuf};
use mpd_client::{client::{CommandError, ConnectionEvent}, Client};
use mpd_protocol::{command::{Command, CommandList}, response::Frame};

fn noop_waker() -> Waker {
    fn clone(_: *const ()) -> RawWaker { RawWaker::new(std::ptr::null(), &VT) }
    fn noop(_: *const ()) {}
    static VT: RawWakerVTable = RawWakerVTable::new(clone, noop, noop, noop);
    unsafe { Waker::from_raw(RawWaker::new(std::ptr::null(), &VT)) }
}

#[derive(Default)]
struct Flags { fail_read: AtomicBool, fail_write: AtomicBool, dropped: AtomicBool, budget: std::sync::atomic::AtomicIsize, waker: std::sync::Mutex<Option<Waker>>, read_waker: std::sync::Mutex<Option<Waker>>, max_write: std::sync::atomic::AtomicUsize }
struct Faulty { inner: DuplexStream, flags: Arc<Flags> }
impl Drop for Faulty { fn drop(&mut self) { self.flags.dropped.store(true, Ordering::SeqCst); } }
impl AsyncRead for Faulty {
    fn poll_read(mut self: Pin<&mut Self>, cx: &mut Context<'_>, buf: &mut ReadBuf<'_>) -> Poll<io::Result<()>> {
        if self.flags.fail_read.load(Ordering::SeqCst) { return Poll::Ready(Err(io::ErrorKind::ConnectionReset.into())); }
        let r = Pin::new(&mut self.inner).poll_read(cx, buf);
        // (an error on a real socket wakes a pending reader: the waker is kept so that the injected read error can do the same)
        if r.is_pending() { *self.flags.read_waker.lock().unwrap() = Some(cx.waker().clone()); }
        r
    }
}
impl AsyncWrite for Faulty {
    fn poll_write(mut self: Pin<&mut Self>, cx: &mut Context<'_>, buf: &[u8]) -> Poll<io::Result<usize>> {
        if self.flags.fail_write.load(Ordering::SeqCst) { return Poll::Ready(Err(io::ErrorKind::BrokenPipe.into())); }
        let b = self.flags.budget.load(Ordering::SeqCst);
        if b == 0 { *self.flags.waker.lock().unwrap() = Some(cx.waker().clone()); return Poll::Pending; }
        let mut n = if b < 0 { buf.len() } else { buf.len().min(b as usize) };
        let cap = self.flags.max_write.load(Ordering::SeqCst);          // per-call cap (short writes are legal)
        if cap > 0 { n = n.min(cap); }
        let r = Pin::new(&mut self.inner).poll_write(cx, &buf[..n]);
        if let Poll::Ready(Ok(k)) = &r { if b > 0 { self.flags.budget.fetch_sub(*k as isize, Ordering::SeqCst); } }
        r
    }
    fn poll_flush(mut self: Pin<&mut Self>, cx: &mut Context<'_>) -> Poll<io::Result<()>> { Pin::new(&mut self.inner).poll_flush(cx) }
    fn poll_shutdown(mut self: Pin<&mut Self>, cx: &mut Context<'_>) -> Poll<io::Result<()>> { Pin::new(&mut self.inner).poll_shutdown(cx) }
}

/// the simulated MPD server of props/client_common.py (same rules)
#[derive(Default)]
struct Server {
    buf: Vec<u8>, idle: bool, pending: Vec<Vec<u8>>, lines: Vec<Vec<u8>>, violations: Vec<String>, changed: Vec<Vec<u8>>, in_list: Option<Vec<Vec<u8>>>,
    outbox: VecDeque<u8>, password: String, closed: bool, multi_changed: bool,
    art: Option<(Vec<u8>, usize, usize, bool)>, art_requests: Vec<Vec<u8>>, known: Option<Vec<Vec<u8>>>,
    art_limit2: usize, art_cutlf: bool, art_late_err: bool, art_lie: bool, barriers: Vec<usize>, sent_total: usize, ack_next_idle: bool, idle_acked: bool,
}
impl Server {
    fn send(&mut self, d: &[u8]) { self.outbox.extend(d.iter().copied()); self.sent_total += d.len(); }
    fn change(&mut self, name: &[u8]) {
        if self.idle { self.idle = false; self.changed.push(name.to_vec()); let mut l = b"changed: ".to_vec(); l.extend_from_slice(name); l.extend_from_slice(b"\nOK\n"); self.send(&l); }
        else if !self.pending.iter().any(|p| p == name) { self.pending.push(name.to_vec()); }
    }
    fn feed(&mut self, data: &[u8]) { for &b in data { if b == b'\n' { let l = std::mem::take(&mut self.buf); self.handle(l); } else { self.buf.push(b); } } }
    fn handle(&mut self, line: Vec<u8>) {
        self.lines.push(line.clone());
        let undelivered = !self.outbox.is_empty();
        if line == b"idle" && self.ack_next_idle {
            self.ack_next_idle = false; self.idle_acked = true;
            self.send(b"ACK [4@0] {idle} you do not have permission for idle\n");
            return;
        }
        if line == b"idle" {
            if self.idle { self.violations.push("idle while already idling".into()); }
            if undelivered && self.in_list.is_none() { self.violations.push("request written before the previous reply was consumed: idle".into()); }
            if !self.pending.is_empty() {
                if self.pending.len() > 1 { self.multi_changed = true; }
                for n in std::mem::take(&mut self.pending) { self.changed.push(n.clone()); let mut l = b"changed: ".to_vec(); l.extend_from_slice(&n); l.push(b'\n'); self.send(&l); }
                self.send(b"OK\n");
            } else { self.idle = true; }
            return;
        }
        if line == b"noidle" { if self.idle { self.idle = false; self.send(b"OK\n"); } return; }
        if self.idle { self.violations.push(format!("{:?} written while the server is idling", String::from_utf8_lossy(&line))); return; }
        if let Some(k) = &self.known { if !k.contains(&line) && !line.starts_with(b"password") && !line.starts_with(b"readpicture") && !line.starts_with(b"albumart") {
            self.violations.push(format!("{:?} is not a request any caller issued (torn or merged request lines)", String::from_utf8_lossy(&line))); } }
        if undelivered && self.in_list.is_none() && line != b"command_list_end" { self.violations.push(format!("request {:?} written before the previous reply was consumed", String::from_utf8_lossy(&line))); }
        if line.starts_with(b"password") {
            match self.password.as_str() { "ACK" => self.send(b"ACK [3@0] {password} incorrect password\n"), "ACKempty" => self.send(b"ACK [3@0] {password} \n"), "ACKperm" => self.send(b"ACK [4@0] {} you don't have permission for \"password\"\n"), "listACK" => self.send(b"list_OK\nACK [3@1] {password} incorrect password\n"), "garbage" => self.send(b"\x01\x02\n"), "close" => self.closed = true, _ => self.send(b"OK\n") }
            return;
        }
        if line == b"command_list_ok_begin" { self.in_list = Some(Vec::new()); return; }
        if line == b"command_list_end" {
            let cmds = self.in_list.take().unwrap_or_default();
            for (k, c) in cmds.iter().enumerate() {
                if c.starts_with(b"p") { let w = c.split(|b| *b == b' ').next().unwrap(); self.send(format!("file: x\nTitle: y\nACK [50@{k}] {{{}}} failed half-way\n", String::from_utf8_lossy(w)).as_bytes()); return; }
                if c.starts_with(b"f") { let w = c.split(|b| *b == b' ').next().unwrap(); self.send(format!("ACK [5@{k}] {{{}}} failing\n", String::from_utf8_lossy(w)).as_bytes()); return; }
                let mut l = b"id: ".to_vec(); l.extend_from_slice(c); if c.starts_with(b"b") { l.extend_from_slice(b"\nbinary: 2\nXY"); } l.extend_from_slice(b"\nlist_OK\n"); self.send(&l);
            }
            self.send(b"OK\n"); return;
        }
        if let Some(l) = self.in_list.as_mut() { l.push(line); return; }
        if let Some((pic, limit, source, mime)) = self.art.clone() {
            let parts: Vec<&[u8]> = line.split(|b| *b == b' ').collect();
            if parts[0] == b"readpicture" || parts[0] == b"albumart" {
                self.art_requests.push(line.clone());
                let off: usize = String::from_utf8_lossy(parts[parts.len() - 1]).parse().unwrap();
                let embedded = parts[0] == b"readpicture";
                if self.art_late_err && off > 0 { self.send(format!("ACK [50@0] {{{}}} No such file\n", String::from_utf8_lossy(parts[0])).as_bytes()); return; }
                let source = if parts[1] == b"song" { source } else { 3 };
                // source: 0 embedded, 1 file (readpicture empty), 2 file (readpicture ACK 5), 3 nothing, 4 readpicture ACK 52
                if embedded {
                    if source == 2 { self.send(b"ACK [5@0] {readpicture} nope\n"); return; }
                    if source == 4 { self.send(b"ACK [52@0] {readpicture} nope\n"); return; }
                    if source != 0 { self.send(b"OK\n"); return; }
                } else if source == 3 { self.send(b"OK\n"); return; }
                let limit = if off == 0 || self.art_limit2 == 0 { limit } else { self.art_limit2 };
                let chunk = &pic[off.min(pic.len())..(off + limit).min(pic.len())];
                let mut out = format!("size: {}\n", if self.art_lie { 1 } else { pic.len() }).into_bytes();
                if mime && embedded { out.extend_from_slice(b"type: image/png\n"); }
                out.extend_from_slice(format!("binary: {}\n", chunk.len()).as_bytes());
                if self.art_cutlf { self.barriers.push(self.sent_total + out.len() + chunk.len()); }
                out.extend_from_slice(chunk); out.extend_from_slice(b"\nOK\n");
                self.send(&out); return;
            }
        }
        if line.starts_with(b"p") { let w = line.split(|b| *b == b' ').next().unwrap(); self.send(format!("file: x\nTitle: y\nACK [50@0] {{{}}} failed half-way\n", String::from_utf8_lossy(w)).as_bytes()); }
        else if line.starts_with(b"f") { let w = line.split(|b| *b == b' ').next().unwrap(); self.send(format!("ACK [5@0] {{{}}} failing\n", String::from_utf8_lossy(w)).as_bytes()); }
        else { let mut l = b"id: ".to_vec(); l.extend_from_slice(&line); if line.starts_with(b"b") { l.extend_from_slice(b"\nbinary: 2\nXY"); } l.extend_from_slice(b"\nOK\n"); self.send(&l); }
    }
}

fn frame_txt(f: &Frame) -> String {
    let mut v: Vec<String> = f.fields().map(|(k, v)| format!("{k}={v}")).collect();
    if let Some(b) = f.binary() { v.push(format!("#binary={}", String::from_utf8_lossy(b))); }
    v.join(",")
}
type ReqFut = Pin<Box<dyn Future<Output = String>>>;
fn outcome<T>(r: Result<T, CommandError>, show: impl Fn(&T) -> String) -> String {
    match r {
        Ok(v) => show(&v),
        Err(CommandError::ConnectionClosed) => "closed".into(),
        Err(CommandError::Protocol(mpd_protocol::MpdProtocolError::InvalidMessage)) => "protocol invalid".into(),
        Err(CommandError::Protocol(mpd_protocol::MpdProtocolError::Io(e))) => format!("protocol {:?}", e.kind()),
        Err(CommandError::ErrorResponse { error, succesful_frames }) => format!("ack {} {} {} [{}]", error.code, error.command_index, error.current_command.as_deref().unwrap_or("-"),
            succesful_frames.iter().map(frame_txt).collect::<Vec<_>>().join("|")),
        Err(CommandError::InvalidTypedResponse(_)) => "typed_error".into(),
    }
}
/// Harness command for typed lists: request `c<letter k>`, response = (k, the frame it was given).
struct HCmd(u8);
impl mpd_client::commands::Command for HCmd {
    type Response = (u8, mpd_protocol::response::Frame);
    fn command(&self) -> Command { Command::new(std::str::from_utf8(&[b'c', 97 + self.0]).unwrap()) }
    fn response(self, frame: mpd_protocol::response::Frame) -> Result<Self::Response, mpd_client::responses::TypedResponseError> { Ok((self.0, frame)) }
}
fn make_request(client: &Client, req: &str) -> ReqFut {
    let client = client.clone();
    let (kind, body) = req.split_once(':').unwrap();
    let body = body.to_string();
    match kind {
        "cmd" => Box::pin(async move { outcome(client.raw_command(Command::new(&body)).await, |f| format!("frame {}", frame_txt(f))) }),
        "list" => Box::pin(async move {
            let mut names = body.split(',');
            let mut l = CommandList::new(Command::new(names.next().unwrap()));
            for n in names { l.add(Command::new(n)); }
            outcome(client.raw_command_list(l).await, |fs| format!("frames [{}]", fs.iter().map(frame_txt).collect::<Vec<_>>().join("|")))
        }),
        "typed" => Box::pin(async move {
            let cmds: Vec<HCmd> = body.split(',').filter(|s| !s.is_empty()).enumerate().map(|(k, n)| { assert_eq!(n.as_bytes(), [b'c', 97 + k as u8]); HCmd(k as u8) }).collect();
            outcome(client.command_list(cmds).await, |rs| format!("typed [{}]", rs.iter().map(|(k, f)| format!("{}>{}", k, frame_txt(f))).collect::<Vec<_>>().join("|")))
        }),
        "art" => Box::pin(async move { outcome(client.album_art(&body).await, |o| match o { None => "none".into(), Some((d, m)) => format!("art {} {}", crate::hex(d), m.clone().unwrap_or_else(|| "-".into())) }) }),
        _ => panic!("request kind"),
    }
}

struct Caller { script: Vec<String>, next: usize, fut: Option<ReqFut>, current: Option<String>, results: Vec<(String, String)>, cancelled: Vec<String> }

pub fn client(a: &[String]) {
    let rt = tokio::runtime::Builder::new_current_thread().enable_all().start_paused(true).build().unwrap();
    let args: Vec<String> = a.to_vec();
    rt.block_on(async move {
        let callers_spec = &args[0];
        // password spec: `-` plain connect | `pw:<hex>` connect_with_password | `opt:<hex or ->` connect_with_password_opt | anything else: literal password
        let (pw_entry, password): (&str, Option<String>) = if args[1] == "-" { ("plain", None) }
            else if let Some(h) = args[1].strip_prefix("pw:") { ("pw", Some(String::from_utf8(crate::args_bytes(&[h.to_string()])[0].clone()).unwrap())) }
            else if let Some(h) = args[1].strip_prefix("opt:") { ("opt", if h == "-" { None } else { Some(String::from_utf8(crate::args_bytes(&[h.to_string()])[0].clone()).unwrap()) }) }
            else { ("pw", Some(args[1].clone())) };
        let server = Rc::new(RefCell::new(Server { password: args[2].clone(), ..Default::default() }));
        if args[3] != "-" {
            let p: Vec<&str> = args[3].split(',').collect();
            let size: usize = p[0].parse().unwrap();
            let pic: Vec<u8> = (0..size).map(|i| if i % 3 != 0 { 0x41 + (i % 5) as u8 } else { 10 }).collect();
            server.borrow_mut().art = Some((pic, p[1].parse().unwrap(), p[2].parse().unwrap(), p[3] == "1"));
            server.borrow_mut().art_limit2 = p.get(4).map(|x| x.parse().unwrap()).unwrap_or(0);
            server.borrow_mut().art_cutlf = p.get(5).map(|x| *x == "1").unwrap_or(false);
            server.borrow_mut().art_late_err = p.get(6).map(|x| *x == "1").unwrap_or(false);
            server.borrow_mut().art_lie = p.get(7).map(|x| *x == "1").unwrap_or(false);
        }
        {
            let mut k: Vec<Vec<u8>> = vec![b"command_list_ok_begin".to_vec(), b"command_list_end".to_vec()];
            for c in callers_spec.split('|') { for req in c.split(';').filter(|s| !s.is_empty()) { let (_, body) = req.split_once(':').unwrap(); for n in body.split(',') { k.push(n.as_bytes().to_vec()); } } }
            server.borrow_mut().known = Some(k);
        }
        let flags = Arc::new(Flags::default());
        if args[4..].iter().any(|s| s == "slowconnect") { flags.max_write.store(1, Ordering::SeqCst); }
        flags.budget.store(-1, Ordering::SeqCst);
        let (cl, srv) = tokio::io::duplex(1 << 16);
        let (mut srv_r, srv_w) = tokio::io::split(srv);
        let mut srv_w = Some(srv_w);
        let waker = noop_waker();
        // server side helpers
        macro_rules! pump { () => {{
            // read everything the client wrote so far
            loop {
                let mut tmp = [0u8; 4096];
                let mut rb = ReadBuf::new(&mut tmp);
                let mut cx = Context::from_waker(&waker);
                match Pin::new(&mut srv_r).poll_read(&mut cx, &mut rb) {
                    Poll::Ready(Ok(())) if !rb.filled().is_empty() => { let d = rb.filled().to_vec(); server.borrow_mut().feed(&d); }
                    _ => break,
                }
            }
        }} }
        macro_rules! run_tasks { () => {{ for _ in 0..8 { tokio::task::yield_now().await; pump!(); } }} }
        srv_w.as_mut().unwrap().write_all(b"OK MPD 0.23.5\n").await.unwrap();
        // connect: the password exchange needs the server to answer while connect is pending
        let mut conn: Pin<Box<dyn Future<Output = Result<mpd_client::client::Connection, String>>>> = {
            let io = Faulty { inner: cl, flags: flags.clone() };
            let show = |e: mpd_client::client::ConnectWithPasswordError| match e {
                mpd_client::client::ConnectWithPasswordError::IncorrectPassword => "IncorrectPassword".to_string(),
                mpd_client::client::ConnectWithPasswordError::ProtocolError(e) => format!("ProtocolError {e:?}") };
            if pw_entry == "opt" {
                let p = password.clone();
                Box::pin(async move { Client::connect_with_password_opt(io, p.as_deref()).await.map_err(show) })
            } else { match password.clone() {
                None => Box::pin(async move { Client::connect(io).await.map_err(|e| format!("ProtocolError {e:?}")) }),
                Some(p) => Box::pin(async move { Client::connect_with_password(io, &p).await.map_err(|e| match e {
                    mpd_client::client::ConnectWithPasswordError::IncorrectPassword => "IncorrectPassword".to_string(),
                    mpd_client::client::ConnectWithPasswordError::ProtocolError(e) => format!("ProtocolError {e:?}") }) }),
            } }
        };
        let mut connected = None;
        for _ in 0..50 {
            let mut cx = Context::from_waker(&waker);
            if let Poll::Ready(r) = conn.as_mut().poll(&mut cx) { connected = Some(r); break; }
            pump!();
            // release everything the server produced
            let out: Vec<u8> = server.borrow_mut().outbox.drain(..).collect();
            if !out.is_empty() { if let Some(w) = srv_w.as_mut() { w.write_all(&out).await.unwrap(); } }
            if server.borrow().closed { if let Some(mut w) = srv_w.take() { let _ = w.shutdown().await; } }
            tokio::task::yield_now().await;
        }
        drop(conn);
        let (client, events) = match connected.expect("connect finishes") {
            Ok(c) => { println!("connect=Ok"); c }
            Err(e) => { println!("connect=Err {e}"); run_tasks!(); for l in &server.borrow().lines { println!("line={}", String::from_utf8_lossy(l)); } return; }
        };
        let mut events = Some(events);
        let mut clients = vec![client];
        let mut callers: Vec<Caller> = callers_spec.split('|').map(|c| Caller { script: c.split(';').filter(|s| !s.is_empty()).map(String::from).collect(), next: 0, fut: None, current: None, results: vec![], cancelled: vec![] }).collect();
        let mut steps_done: Vec<String> = Vec::new();
        let mut change_n = 0usize;
        macro_rules! deliver { ($half:expr) => { deliver!($half, usize::MAX) }; ($half:expr, $cut:expr) => {{
            let mut s = server.borrow_mut();
            if !s.outbox.is_empty() {
                let mut e = s.outbox.iter().position(|b| *b == b'\n').map(|p| p + 1).unwrap_or(s.outbox.len());
                if $half && e > 1 { e = (e / 2).max(1); }
                if $cut != usize::MAX { e = e.min($cut).max(1); }
                let d = s.sent_total - s.outbox.len();
                if let Some(i) = s.barriers.iter().position(|b| d < *b && *b < d + e) { e = s.barriers[i] - d; s.barriers.remove(i); }
                let out: Vec<u8> = s.outbox.drain(..e).collect();
                drop(s);
                if let Some(w) = srv_w.as_mut() { let _ = w.write_all(&out).await; }
            }
        }} }
        macro_rules! poll_caller { ($i:expr) => {{
            let c = &mut callers[$i];
            if let Some(f) = c.fut.as_mut() {
                let mut cx = Context::from_waker(&waker);
                if let Poll::Ready(r) = f.as_mut().poll(&mut cx) { c.results.push((c.current.take().unwrap(), r)); c.fut = None; }
            }
        }} }
        for st in &args[4..] {
            let st = st.as_str();
            if st == "loop" { run_tasks!(); }
            else if let Some(i) = st.strip_prefix("issue") { let i: usize = i.parse().unwrap(); let c = &mut callers[i]; let req = c.script[c.next].clone(); c.next += 1;
                if let Some(cl) = clients.first() { c.fut = Some(make_request(cl, &req)); c.current = Some(req); poll_caller!(i); } }
            else if let Some(i) = st.strip_prefix("poll") { let i: usize = i.parse().unwrap(); poll_caller!(i); }
            else if let Some(i) = st.strip_prefix("cancel") { let i: usize = i.parse().unwrap(); let c = &mut callers[i]; c.fut = None; if let Some(r) = c.current.take() { c.cancelled.push(r); } }
            else if st == "deliver" { deliver!(false); }
            else if st == "deliver/2" { deliver!(true); }
            else if let Some(n) = st.strip_prefix("deliver@") { let n: usize = n.parse().unwrap(); deliver!(false, n); }
            else if st == "dropevents" { events = None; }
            else if st == "fault:idleack" { server.borrow_mut().ack_next_idle = true; }
            else if let Some(n) = st.strip_prefix("change:") { server.borrow_mut().change(n.as_bytes()); change_n += 1; }
            else if st == "tick" { tokio::time::advance(Duration::from_millis(150)).await; pump!(); }
            else if st == "longtick" { tokio::time::advance(Duration::from_secs(60)).await; pump!(); }
            else if st == "slowconnect" { }
            else if st == "slowwrite" { flags.budget.store(1, Ordering::SeqCst); }
            else if st == "unblock" { flags.budget.store(-1, Ordering::SeqCst); if let Some(w) = flags.waker.lock().unwrap().take() { w.wake(); } }
            else if st == "dropclient" { if !clients.is_empty() { clients.remove(0); } }
            else if st == "fault:eof" { if let Some(mut w) = srv_w.take() { let _ = w.shutdown().await; } }
            else if st == "fault:read_error" { flags.fail_read.store(true, Ordering::SeqCst); if let Some(w) = flags.read_waker.lock().unwrap().take() { w.wake(); } }
            else if st == "fault:write_error" { flags.fail_write.store(true, Ordering::SeqCst); }
            else if st == "fault:garbage" { if let Some(w) = srv_w.as_mut() { let _ = w.write_all(b"\x01 junk\n").await; } }
            else { panic!("step {st}"); }
            steps_done.push(st.to_string());
        }
        let _ = change_n;
        flags.budget.store(-1, Ordering::SeqCst); if let Some(w) = flags.waker.lock().unwrap().take() { w.wake(); }
        // final settle (as in the python harness): everything delivered, timers expired, everything polled
        let step = server.borrow().art_cutlf;          // deliver one segment, then let everything run (instead of draining)
        for round in 0..(if step { 80 } else { 12 }) {
            for _ in 0..6 { while !server.borrow().outbox.is_empty() { deliver!(false); if step { break; } } run_tasks!(); for i in 0..callers.len() { poll_caller!(i); } }
            if round < 2 { tokio::time::advance(Duration::from_millis(150)).await; pump!(); }
        }
        // observations
        let s = server.borrow();
        for l in &s.lines { println!("line={}", String::from_utf8_lossy(l)); }
        for v in &s.violations { println!("violation={v}"); }
        for c in &s.changed { println!("changed={}", String::from_utf8_lossy(c)); }
        println!("server_idle={}", s.idle);
        println!("idle_acked={}", s.idle_acked);
        println!("multi_changed={}", s.multi_changed);
        for r in &s.art_requests { println!("artreq={}", String::from_utf8_lossy(r)); }
        drop(s);
        for (i, c) in callers.iter().enumerate() {
            for (req, out) in &c.results { println!("result{i}={req} => {out}"); }
            if let Some(p) = &c.current { println!("pending{i}={p}"); }
            for x in &c.cancelled { println!("cancelled{i}={x}"); }
        }
        println!("is_closed={}", clients.first().map(|c| c.is_connection_closed().to_string()).unwrap_or_else(|| "none".into()));
        // events: drain without blocking
        while let Some(events) = events.as_mut() {
            let mut cx = Context::from_waker(&waker);
            let mut f = Box::pin(events.next());
            match f.as_mut().poll(&mut cx) {
                Poll::Ready(Some(ConnectionEvent::SubsystemChange(s))) => println!("event=change:{}", s.as_str()),
                Poll::Ready(Some(ConnectionEvent::ConnectionClosed(_))) => println!("event=closed"),
                Poll::Ready(None) => { println!("event=end"); break; }
                Poll::Pending => break,
            }
        }
        println!("transport_dropped={}", flags.dropped.load(Ordering::SeqCst));
    });
}
