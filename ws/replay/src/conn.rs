//! Connections over a scripted transport (C02, C03, C09, C10, C18).
//! recv <sync|async> <hex stream incl. greeting> <max receives> <cut offsets...>
use crate::{args_bytes, hex, Pipe};
use mpd_protocol::{response::Response, AsyncConnection, Connection, MpdProtocolError};
use std::{io, pin::Pin, task::{Context, Poll}};

fn segments(stream: &[u8], cuts: &[usize]) -> Vec<Vec<u8>> {
    let mut out = Vec::new();
    let mut last = 0;
    for &c in cuts { if c > last && c < stream.len() { out.push(stream[last..c].to_vec()); last = c; } }
    if last < stream.len() { out.push(stream[last..].to_vec()); }
    out
}

fn show(r: &Response) {
    println!("out=response");
    for f in r.frames() {
        match f {
            Ok(f) => println!("frame={}|{}", f.fields().map(|(k, v)| format!("{}:{}", hex(k.as_bytes()), hex(v.as_bytes()))).collect::<Vec<_>>().join(","),
                              f.binary().map(hex).unwrap_or_else(|| "none".into())),
            Err(e) => println!("error={}:{}:{}:{}", e.code, e.command_index, e.current_command.as_ref().map(|c| hex(c.as_bytes())).unwrap_or_else(|| "none".into()), hex(e.message.as_bytes())),
        }
    }
    println!("end=response");
}
fn show_err(e: &MpdProtocolError) {
    match e {
        MpdProtocolError::InvalidMessage => println!("out=invalid"),
        MpdProtocolError::Io(e) if e.kind() == io::ErrorKind::UnexpectedEof => println!("out=eof"),
        MpdProtocolError::Io(e) => println!("out=ioerror {:?}", e.kind()),
    }
}

struct AsyncPipe(Pipe);
impl tokio::io::AsyncRead for AsyncPipe {
    fn poll_read(mut self: Pin<&mut Self>, _cx: &mut Context<'_>, buf: &mut tokio::io::ReadBuf<'_>) -> Poll<io::Result<()>> {
        let me = &mut self.0;
        me.reads += 1;
        if me.next < me.segs.len() {
            let seg = &mut me.segs[me.next];
            let n = seg.len().min(buf.remaining());
            buf.put_slice(&seg[..n]);
            seg.drain(..n);
            if seg.is_empty() { me.next += 1; }
        }
        Poll::Ready(Ok(()))
    }
}

pub fn recv(a: &[String]) {
    let stream = args_bytes(&a[1..2])[0].clone();
    let max: usize = a[2].parse().unwrap();
    let cuts: Vec<usize> = a[3..].iter().map(|c| c.parse().unwrap()).collect();
    let pipe = Pipe { segs: segments(&stream, &cuts), next: 0, out: Vec::new(), reads: 0 };
    if a[0] == "sync" {
        let mut c = match Connection::connect(pipe) {
            Ok(c) => { println!("connect=ok {}", hex(c.protocol_version().as_bytes())); c }
            Err(e) => { print!("connect="); show_err(&e); return; }
        };
        for _ in 0..max {
            match c.receive() {
                Ok(Some(r)) => show(&r),
                Ok(None) => { println!("out=closed"); break; }
                Err(e) => { show_err(&e); break; }
            }
        }
        println!("reads={}", c.into_inner().reads);
    } else {
        let rt = tokio::runtime::Builder::new_current_thread().build().unwrap();
        rt.block_on(async move {
            let mut c = match AsyncConnection::connect(AsyncPipe(pipe)).await {
                Ok(c) => { println!("connect=ok {}", hex(c.protocol_version().as_bytes())); c }
                Err(e) => { print!("connect="); show_err(&e); return; }
            };
            for _ in 0..max {
                match c.receive().await {
                    Ok(Some(r)) => show(&r),
                    Ok(None) => { println!("out=closed"); break; }
                    Err(e) => { show_err(&e); break; }
                }
            }
            println!("reads={}", c.into_inner().0.reads);
        });
    }
}
