//! Connections over a scripted transport (C02, C03, C09, C10, C18).
//! recv <sync|async> <hex stream incl. greeting> <max receives> <cut offsets...>
use crate::{args_bytes, hex, Pipe};
use mpd_protocol::{response::Response, AsyncConnection, Connection, MpdProtocolError};
use std::{io, pin::Pin, task::{Context, Poll}};

fn segments(stream: &[u8], cuts: &[usize]) -> Vec<Vec<u8>> {
    let mut out = Vec::new();
    let mut last = 0;
    for &c in cuts { if c > last && c < stream.len() { out.push(stream[last..c].to_vec()); last = c; } }
    if last < stream.len() { out.push(stream[last..].to_vec()); }
    out
}

fn show(r: &Response) {
    println!("out=response");
    for f in r.frames() {
        match f {
            Ok(f) => println!("frame={}|{}", f.fields().map(|(k, v)| format!("{}:{}", hex(k.as_bytes()), hex(v.as_bytes()))).collect::<Vec<_>>().join(","),
                              f.binary().map(hex).unwrap_or_else(|| "none".into())),
            Err(e) => println!("error={}:{}:{}:{}", e.code, e.command_index, e.current_command.as_ref().map(|c| hex(c.as_bytes())).unwrap_or_else(|| "none".into()), hex(e.message.as_bytes())),
        }
    }
    println!("end=response");
}
fn show_err(e: &MpdProtocolError) {
    match e {
        MpdProtocolError::InvalidMessage => println!("out=invalid"),
        MpdProtocolError::Io(e) if e.kind() == io::ErrorKind::UnexpectedEof => println!("out=eof"),
        MpdProtocolError::Io(e) => println!("out=ioerror {:?}", e.kind()),
    }
}

struct AsyncPipe(Pipe);
impl tokio::io::AsyncRead for AsyncPipe {
    fn poll_read(mut self: Pin<&mut Self>, _cx: &mut Context<'_>, buf: &mut tokio::io::ReadBuf<'_>) -> Poll<io::Result<()>> {
        if crate::interrupted_now() { return Poll::Ready(Err(io::Error::new(io::ErrorKind::Interrupted, "interrupted system call"))); }
        let me = &mut self.0;
        me.reads += 1;
        if me.next < me.segs.len() {
            let seg = &mut me.segs[me.next];
            let n = seg.len().min(buf.remaining());
            buf.put_slice(&seg[..n]);
            seg.drain(..n);
            if seg.is_empty() { me.next += 1; }
        }
        Poll::Ready(Ok(()))
    }
}

pub fn recv(a: &[String]) {
    let stream = args_bytes(&a[1..2])[0].clone();
    // `<n>+`: after an error, receive is called once more (a caller may do that; it must not panic)
    let again = a[2].ends_with('+');
    let max: usize = a[2].trim_end_matches('+').parse().unwrap();
    let cuts: Vec<usize> = a[3..].iter().filter(|c| !c.starts_with('i')).map(|c| c.parse().unwrap()).collect();
    if let Some(k) = a[3..].iter().find_map(|c| c.strip_prefix('i')) { crate::INTERRUPT_AT.store(k.parse().unwrap(), std::sync::atomic::Ordering::SeqCst); }
    let pipe = Pipe { segs: segments(&stream, &cuts), next: 0, out: Vec::new(), reads: 0 };
    if a[0] == "sync" {
        let mut c = match Connection::connect(pipe) {
            Ok(c) => { println!("connect=ok {}", hex(c.protocol_version().as_bytes())); c }
            Err(e) => { print!("connect="); show_err(&e); return; }
        };
        for _ in 0..max {
            match c.receive() {
                Ok(Some(r)) => show(&r),
                Ok(None) => { println!("out=closed"); break; }
                Err(e) => { show_err(&e); if again { println!("again={}", match c.receive() { Ok(Some(_)) => "response", Ok(None) => "closed", Err(_) => "error" }); } break; }
            }
        }
        println!("reads={}", c.into_inner().reads);
    } else {
        let rt = tokio::runtime::Builder::new_current_thread().build().unwrap();
        rt.block_on(async move {
            let mut c = match AsyncConnection::connect(AsyncPipe(pipe)).await {
                Ok(c) => { println!("connect=ok {}", hex(c.protocol_version().as_bytes())); c }
                Err(e) => { print!("connect="); show_err(&e); return; }
            };
            for _ in 0..max {
                match c.receive().await {
                    Ok(Some(r)) => show(&r),
                    Ok(None) => { println!("out=closed"); break; }
                    Err(e) => { show_err(&e); if again { println!("again={}", match c.receive().await { Ok(Some(_)) => "response", Ok(None) => "closed", Err(_) => "error" }); } break; }
                }
            }
            println!("reads={}", c.into_inner().0.reads);
        });
    }
}

/// Transport that accepts at most `max` bytes per write call (0 = everything): short writes are legal for Write / AsyncWrite.
struct ShortPipe { inner: Pipe, max: usize }
impl io::Read for ShortPipe { fn read(&mut self, b: &mut [u8]) -> io::Result<usize> { io::Read::read(&mut self.inner, b) } }
impl io::Write for ShortPipe {
    fn write(&mut self, b: &[u8]) -> io::Result<usize> {
        let n = if self.max == 0 { b.len() } else { b.len().min(self.max) };
        self.inner.out.extend_from_slice(&b[..n]);
        Ok(n)
    }
    fn flush(&mut self) -> io::Result<()> { Ok(()) }
}
impl tokio::io::AsyncRead for ShortPipe {
    fn poll_read(mut self: Pin<&mut Self>, _cx: &mut Context<'_>, buf: &mut tokio::io::ReadBuf<'_>) -> Poll<io::Result<()>> {
        if crate::interrupted_now() { return Poll::Ready(Err(io::Error::new(io::ErrorKind::Interrupted, "interrupted system call"))); }
        let me = &mut self.inner;
        if me.next < me.segs.len() {
            let seg = &mut me.segs[me.next];
            let n = seg.len().min(buf.remaining());
            buf.put_slice(&seg[..n]);
            seg.drain(..n);
            if seg.is_empty() { me.next += 1; }
        }
        Poll::Ready(Ok(()))
    }
}
impl tokio::io::AsyncWrite for ShortPipe {
    fn poll_write(mut self: Pin<&mut Self>, _cx: &mut Context<'_>, b: &[u8]) -> Poll<io::Result<usize>> {
        Poll::Ready(io::Write::write(&mut *self, b))
    }
    fn poll_flush(self: Pin<&mut Self>, _cx: &mut Context<'_>) -> Poll<io::Result<()>> { Poll::Ready(Ok(())) }
    fn poll_shutdown(self: Pin<&mut Self>, _cx: &mut Context<'_>) -> Poll<io::Result<()>> { Poll::Ready(Ok(())) }
}

/// sendlist <sync|async> <max bytes per write, 0 = all> <n> then n groups `<name> <argc> <args...>`:
/// connect, then `send` (n = 1) or `send_list`; prints everything the transport received.
pub fn sendlist(a: &[String]) {
    use mpd_protocol::command::{Command, CommandList};
    let max: usize = a[1].parse().unwrap();
    let n: usize = a[2].parse().unwrap();
    let mut i = 3;
    let mut cmds = Vec::new();
    for _ in 0..n {
        let name = String::from_utf8(args_bytes(&a[i..i + 1])[0].clone()).unwrap();
        let argc: usize = a[i + 1].parse().unwrap();
        let mut c = Command::new(&name);
        for k in 0..argc { c = c.argument(String::from_utf8(args_bytes(&a[i + 2 + k..i + 3 + k])[0].clone()).unwrap()); }
        cmds.push(c);
        i += 2 + argc;
    }
    let pipe = ShortPipe { inner: Pipe { segs: vec![b"OK MPD 0.23.5\n".to_vec()], next: 0, out: Vec::new(), reads: 0 }, max };
    let single = a.get(i).map(|s| s == "single").unwrap_or(false);
    let mut it = cmds.into_iter();
    let first = it.next().unwrap();
    if a[0] == "sync" {
        let mut c = Connection::connect(pipe).expect("greeting");
        let r = if single { c.send(first) } else { let mut l = CommandList::new(first); for x in it { l.add(x); } c.send_list(l) };
        println!("send={}", if r.is_ok() { "ok" } else { "err" });
        println!("wire={}", hex(&c.into_inner().inner.out));
    } else {
        let rt = tokio::runtime::Builder::new_current_thread().build().unwrap();
        rt.block_on(async move {
            let mut c = AsyncConnection::connect(pipe).await.expect("greeting");
            let r = if single { c.send(first).await } else { let mut l = CommandList::new(first); for x in it { l.add(x); } c.send_list(l).await };
            println!("send={}", if r.is_ok() { "ok" } else { "err" });
            println!("wire={}", hex(&c.into_inner().inner.out));
        });
    }
}

/// shorthand <sync|async> <n> <hex stream incl. greeting> <cut offsets...> [i<k>] : connect, then `command` (n = 1) or
/// `command_list` with the commands ca, cb, ...; prints the result and everything the transport received.
pub fn shorthand(a: &[String]) {
    use mpd_protocol::command::{Command, CommandList};
    let n: usize = a[1].parse().unwrap();
    let stream = args_bytes(&a[2..3])[0].clone();
    let cuts: Vec<usize> = a[3..].iter().filter(|c| !c.starts_with('i')).map(|c| c.parse().unwrap()).collect();
    if let Some(k) = a[3..].iter().find_map(|c| c.strip_prefix('i')) { crate::INTERRUPT_AT.store(k.parse().unwrap(), std::sync::atomic::Ordering::SeqCst); }
    let pipe = ShortPipe { inner: Pipe { segs: segments(&stream, &cuts), next: 0, out: Vec::new(), reads: 0 }, max: 0 };
    let names: Vec<String> = (0..n).map(|k| format!("c{}", (b'a' + k as u8) as char)).collect();
    let mut it = names.iter().map(|s| Command::new(s.as_str()));
    let first = it.next().unwrap();
    if a[0] == "sync" {
        let mut c = Connection::connect(pipe).expect("greeting");
        let r = if n == 1 { c.command(first) } else { let mut l = CommandList::new(first); for x in it { l.add(x); } c.command_list(l) };
        match r { Ok(r) => show(&r), Err(e) => show_err(&e) }
        println!("wire={}", hex(&c.into_inner().inner.out));
    } else {
        let rt = tokio::runtime::Builder::new_current_thread().build().unwrap();
        rt.block_on(async move {
            let mut c = AsyncConnection::connect(pipe).await.expect("greeting");
            let r = if n == 1 { c.command(first).await } else { let mut l = CommandList::new(first); for x in it { l.add(x); } c.command_list(l).await };
            match r { Ok(r) => show(&r), Err(e) => show_err(&e) }
            println!("wire={}", hex(&c.into_inner().inner.out));
        });
    }
}
