//! Typed response conversion (C12, C14, C16): resp <entry> <hex wire of the reply (ending in OK\n)>
//! Prints `err=<Display>` or canonical `obs=` lines that the python oracles reproduce from the abstract reply.
use crate::{args_bytes, hex, coll::receive_all};
use mpd_client::{commands::{self as c, Command}, filter::Filter, tag::Tag, responses as r};
use std::time::Duration;

fn d(x: &Duration) -> String { format!("{}.{:09}", x.as_secs(), x.subsec_nanos()) }
fn od(x: &Option<Duration>) -> String { x.as_ref().map(d).unwrap_or_else(|| "none".into()) }
fn os(x: &Option<String>) -> String { x.as_ref().map(|s| hex(s.as_bytes())).unwrap_or_else(|| "none".into()) }
fn tagname(t: &Tag) -> String { let mut b = bytes::BytesMut::new(); mpd_protocol::command::Argument::render(t, &mut b); hex(&b) }

fn song(s: &r::Song) -> String {
    let mut tags: Vec<(String, String)> = s.tags.iter().map(|(t, vs)| (tagname(t), vs.iter().map(|v| hex(v.as_bytes())).collect::<Vec<_>>().join(","))).collect();
    tags.sort();
    // the accessors are part of "reading the resulting value" (C12): a panic in one of them must show up here
    let _ = (s.artists().len(), s.album_artists().len(), s.album().map(str::len), s.title().map(str::len), s.number(), s.file_path().as_os_str().len());
    format!("url={} dur={} format={} lm={} tags={}", hex(s.url.as_bytes()), od(&s.duration), os(&s.format),
            s.last_modified.as_ref().map(|t| hex(t.raw().as_bytes())).unwrap_or_else(|| "none".into()),
            tags.iter().map(|(t, v)| format!("{t}:{v}")).collect::<Vec<_>>().join(";"))
}
fn qsong(s: &r::SongInQueue) -> String {
    format!("pos={} id={} prio={} range={} {}", s.position.0, s.id.0, s.priority,
            s.range.map(|x| format!("{}-{}", d(&x.from), od(&x.to))).unwrap_or_else(|| "none".into()), song(&s.song))
}
fn ident(x: &Option<(c::SongPosition, c::SongId)>) -> String { x.map(|(p, i)| format!("{}/{}", p.0, i.0)).unwrap_or_else(|| "none".into()) }

macro_rules! run { ($cmd:expr, $frame:expr, |$v:ident| $body:block) => {
    match $cmd.response($frame) { Err(e) => println!("err={}", e), Ok($v) => $body }
} }

pub fn resp(a: &[String]) {
    let wire = args_bytes(&a[1..2])[0].clone();
    let rs = receive_all(wire);
    // optional third argument `skip=<n>`: the typed reply is the (n+1)-th response on the connection (earlier ones only pass through it)
    let skip: usize = a.get(2).and_then(|s| s.strip_prefix("skip=")).map(|n| n.parse().unwrap()).unwrap_or(0);
    let frame = match rs.into_iter().nth(skip) {
        Some(Ok(Some(resp))) => match resp.into_single_frame() { Ok(f) => f, Err(e) => { println!("protocol=ack {}", e.code); return; } },
        other => { println!("protocol={:?}", other.map(|x| x.map(|y| y.is_some()))); return; }
    };
    let filter = || Filter::tag(Tag::Artist, "x");
    match a[0].as_str() {
        "Status" => run!(c::Status, frame, |s| {
            println!("obs=volume={} state={:?} repeat={} random={} consume={} single={:?} plversion={} pllength={} cur={} next={} elapsed={} duration={} bitrate={:?} xfade={} update={:?} error={} partition={}",
                s.volume, s.state, s.repeat, s.random, s.consume, s.single, s.playlist_version, s.playlist_length, ident(&s.current_song), ident(&s.next_song),
                od(&s.elapsed), od(&s.duration), s.bitrate, d(&s.crossfade), s.update_job, os(&s.error), os(&s.partition)); }),
        "Stats" => run!(c::Stats, frame, |s| { println!("obs=artists={} albums={} songs={} uptime={} playtime={} dbplaytime={} dbupdate={}", s.artists, s.albums, s.songs, d(&s.uptime), d(&s.playtime), d(&s.db_playtime), s.db_last_update); }),
        "ReplayGainStatus" => run!(c::ReplayGainStatus, frame, |s| { println!("obs=mode={:?}", s.mode); }),
        "Count" => run!(c::Count::new(filter()), frame, |s| { println!("obs=songs={} playtime={}", s.songs, d(&s.playtime)); }),
        "CountGrouped" => run!(c::Count::new(filter()).group_by(Tag::Artist), frame, |v| { println!("obs=groups={}", v.len()); for (g, s) in v { println!("obs=group={} songs={} playtime={}", hex(g.as_bytes()), s.songs, d(&s.playtime)); } }),
        "List0" => run!(c::List::new(Tag::Artist), frame, |l| {
            for v in l.values() { println!("obs=value={}", hex(v.as_bytes())); }
            println!("obs=len={} count={} last={}", l.values().len(), l.values().count(), l.values().last().map(|v| hex(v.as_bytes())).unwrap_or_else(|| "none".into()));
            for v in l.values().rev() { println!("obs=rvalue={}", hex(v.as_bytes())); }
            for (v, _g) in l.grouped_values() { println!("obs=gvalue={}", hex(v.as_bytes())); }
            for (t, v) in l.clone().into_raw_values() { println!("obs=raw={}:{}", tagname(&t), hex(v.as_bytes())); }
            // every pair of operations on both value iterators, then what remains
            fn one<S: AsRef<str>, It: DoubleEndedIterator<Item = S> + ExactSizeIterator>(it: &mut It, op: &str) -> String {
                let r = match op { "n" => it.next(), "b" => it.next_back(), "N0" => it.nth(0), "N1" => it.nth(1), "B0" => it.nth_back(0), _ => it.nth_back(1) };
                r.map(|v| hex(v.as_ref().as_bytes())).unwrap_or_else(|| "end".into())
            }
            let ops = ["n", "b", "N0", "N1", "B0", "B1"];
            for a in ops { for b in ops {
                let mut it = l.values();
                let (x, y) = (one(&mut it, a), one(&mut it, b));
                println!("obs=script {a},{b}:{x},{y} len={} last={}", it.len(), it.last().map(|v| hex(v.as_bytes())).unwrap_or_else(|| "end".into()));
            } }
            for a in ops { for b in ops {
                let mut it = l.clone().into_iter();
                let (x, y) = (one(&mut it, a), one(&mut it, b));
                println!("obs=oscript {a},{b}:{x},{y} len={} last={}", it.len(), it.last().map(|v| hex(v.as_bytes())).unwrap_or_else(|| "end".into()));
            } }
            for v in l { println!("obs=ovalue={}", hex(v.as_bytes())); } }),
        "List1" => run!(c::List::new(Tag::Artist).group_by([Tag::Album]), frame, |l| {
            for (v, g) in l.grouped_values() { println!("obs=gvalue={} group={}", hex(v.as_bytes()), hex(g[0].as_bytes())); }
            for (t, v) in l.into_raw_values() { println!("obs=raw={}:{}", tagname(&t), hex(v.as_bytes())); } }),
        "List2" => run!(c::List::new(Tag::Artist).group_by([Tag::Album, Tag::Date]), frame, |l| {
            for (v, g) in l.grouped_values() { println!("obs=gvalue={} group={},{}", hex(v.as_bytes()), hex(g[0].as_bytes()), hex(g[1].as_bytes())); } }),
        "GetPlaylists" => run!(c::GetPlaylists, frame, |v| { println!("obs=playlists={}", v.len()); for p in v { println!("obs=playlist={} lm={}", hex(p.name.as_bytes()), hex(p.last_modified.raw().as_bytes())); } }),
        "TagTypes" => run!(c::GetEnabledTagTypes, frame, |v| { for t in v { println!("obs=tag={}", tagname(&t)); } }),
        "Queue" => run!(c::Queue::all(), frame, |v| { println!("obs=songs={}", v.len()); for s in &v { println!("obs={}", qsong(s)); } }),
        "CurrentSong" => run!(c::CurrentSong, frame, |v| { match v { None => println!("obs=songs=0"), Some(s) => { println!("obs=songs=1"); println!("obs={}", qsong(&s)); } } }),
        "Find" => run!(c::Find::new(filter()), frame, |v| { println!("obs=songs={}", v.len()); for s in &v { println!("obs={}", song(s)); } }),
        "GetPlaylist" => run!(c::GetPlaylist("p"), frame, |v| { println!("obs=songs={}", v.len()); for s in &v { println!("obs={}", song(s)); } }),
        "ListAllIn" => run!(c::ListAllIn::root(), frame, |v| { println!("obs=songs={}", v.len()); for s in &v { println!("obs={}", song(s)); } }),
        "StickerGet" => run!(c::StickerGet::new("u", "n"), frame, |s| { println!("obs=value={}", hex(s.value.as_bytes())); }),
        "StickerList" => run!(c::StickerList::new("u"), frame, |s| { let mut v: Vec<_> = s.value.iter().map(|(k, v)| format!("{}={}", hex(k.as_bytes()), hex(v.as_bytes()))).collect(); v.sort(); for x in v { println!("obs=sticker {x}"); } }),
        "StickerFind" => run!(c::StickerFind::new("u", "n"), frame, |s| { let mut v: Vec<_> = s.value.iter().map(|(k, v)| format!("{}={}", hex(k.as_bytes()), hex(v.as_bytes()))).collect(); v.sort(); for x in v { println!("obs=sticker {x}"); } }),
        "AlbumArt" => run!(c::AlbumArt::new("u"), frame, |v| { match v { None => println!("obs=none"), Some(x) => println!("obs=size={} mime={} data={}", x.size, os(&x.mime), hex(&x.data)) } }),
        "AlbumArtEmbedded" => run!(c::AlbumArtEmbedded::new("u"), frame, |v| { match v { None => println!("obs=none"), Some(x) => println!("obs=size={} mime={} data={}", x.size, os(&x.mime), hex(&x.data)) } }),
        "Add" => run!(c::Add::uri("u"), frame, |v| { println!("obs=id={}", v.0); }),
        "Update" => run!(c::Update::new(), frame, |v| { println!("obs=job={}", v); }),
        "Rescan" => run!(c::Rescan::new(), frame, |v| { println!("obs=job={}", v); }),
        "ReadChannelMessages" => run!(c::ReadChannelMessages, frame, |v| { for (ch, m) in v { println!("obs=message {} {}", hex(ch.as_bytes()), hex(m.as_bytes())); } }),
        "ListChannels" => run!(c::ListChannels, frame, |v| { for ch in v { println!("obs=channel {}", hex(ch.as_bytes())); } }),
        other => panic!("unknown entry {other}"),
    }
}

/// typedcount vec|tuple <n commands> <n frames>: typed list given another number of frames than commands
pub fn typedcount(a: &[String]) {
    use mpd_client::commands::CommandList as TL;
    let n: usize = a[1].parse().unwrap();
    let m: usize = a[2].parse().unwrap();
    let mut wire = Vec::new();
    for i in 0..m { wire.extend_from_slice(format!("updating_db: {i}\nlist_OK\n").as_bytes()); }
    wire.extend_from_slice(b"OK\n");
    let frames: Vec<_> = if m == 0 { Vec::new() } else { receive_all(wire).remove(0).unwrap().unwrap().into_iter().map(|f| f.unwrap()).collect() };
    if a[0] == "vec" {
        let v: Vec<c::Update> = (0..n).map(|_| c::Update::new()).collect();
        match v.responses(frames) { Ok(r) => println!("ok={}", r.len()), Err(e) => println!("err={e}") }
    } else {
        match n {
            1 => match (c::Update::new(),).responses(frames) { Ok(_) => println!("ok=1"), Err(e) => println!("err={e}") },
            2 => match (c::Update::new(), c::Update::new()).responses(frames) { Ok(_) => println!("ok=2"), Err(e) => println!("err={e}") },
            3 => match (c::Update::new(), c::Update::new(), c::Update::new()).responses(frames) { Ok(_) => println!("ok=3"), Err(e) => println!("err={e}") },
            _ => panic!("arity"),
        }
    }
}
