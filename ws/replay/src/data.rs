//! Data-path scenarios (commands, arguments, lists).
use crate::{args_bytes, hex, Pipe};
use mpd_protocol::{command::{Command, CommandList}, Connection};

fn conn() -> Connection<Pipe> {
    Connection::connect(Pipe { segs: vec![b"OK MPD 0.23.5\n".to_vec()], next: 0, out: Vec::new(), reads: 0 }).expect("greeting")
}

/// line <name> <arg>... : Command::build(name), add_argument(&str) for every arg, Connection::send.
pub fn line(a: &[String]) {
    let b = args_bytes(a);
    let name = String::from_utf8(b[0].clone()).expect("utf8 name");
    let mut cmd = match Command::build(&name) {
        Ok(c) => c,
        Err(_) => { println!("build=err"); return; }
    };
    println!("build=ok");
    for (i, arg) in b[1..].iter().enumerate() {
        let s = String::from_utf8(arg.clone()).expect("utf8 arg");
        match cmd.add_argument(s.as_str()) {
            Ok(()) => println!("add{i}=ok"),
            Err(_) => println!("add{i}=err"),
        }
    }
    let mut c = conn();
    c.send(cmd).expect("send");
    println!("wire={}", hex(&c.into_inner().out));
}

/// linety <str|string|cowb|cowo> <name> <arg>... : as `line`, the arguments passed as &str / String / Cow::Borrowed / Cow::Owned.
pub fn linety(a: &[String]) {
    use std::borrow::Cow;
    let ty = a[0].as_str();
    let b = args_bytes(&a[1..]);
    let name = String::from_utf8(b[0].clone()).expect("utf8 name");
    let mut cmd = match Command::build(&name) {
        Ok(c) => c,
        Err(_) => { println!("build=err"); return; }
    };
    println!("build=ok");
    for (i, arg) in b[1..].iter().enumerate() {
        let s = String::from_utf8(arg.clone()).expect("utf8 arg");
        let r = match ty {
            "string" => cmd.add_argument(s),
            "cowb" => cmd.add_argument(Cow::Borrowed(s.as_str())),
            "cowo" => cmd.add_argument(Cow::<str>::Owned(s)),
            _ => cmd.add_argument(s.as_str()),
        };
        match r {
            Ok(()) => println!("add{i}=ok"),
            Err(_) => println!("add{i}=err"),
        }
    }
    let mut c = conn();
    c.send(cmd).expect("send");
    println!("wire={}", hex(&c.into_inner().out));
}

/// list <n> then n groups `<name> <argc> <args...>` : CommandList::new/add, Connection::send_list.
pub fn list(a: &[String]) {
    let n: usize = a[0].parse().unwrap();
    let mut i = 1;
    let mut cmds = Vec::new();
    for _ in 0..n {
        let name = String::from_utf8(crate::args_bytes(&a[i..i + 1])[0].clone()).unwrap();
        let argc: usize = a[i + 1].parse().unwrap();
        let mut c = Command::new(&name);
        for k in 0..argc {
            let s = String::from_utf8(crate::args_bytes(&a[i + 2 + k..i + 3 + k])[0].clone()).unwrap();
            c = c.argument(s);
        }
        cmds.push(c);
        i += 2 + argc;
    }
    let mut it = cmds.into_iter();
    let mut l = CommandList::new(it.next().unwrap());
    for c in it { l.add(c); }
    let mut c = conn();
    c.send_list(l).expect("send_list");
    println!("wire={}", hex(&c.into_inner().out));
}

/// A user-defined argument whose renderer emits scripted chunks: the j-th invocation appends chunk j (the last
/// chunk repeats).  Renderers may be stateful - `render(&self)` only promises to append.
struct Scripted { chunks: Vec<Vec<u8>>, calls: std::cell::Cell<usize> }
impl mpd_protocol::command::Argument for Scripted {
    fn render(&self, buf: &mut bytes::BytesMut) {
        let j = self.calls.get().min(self.chunks.len() - 1);
        self.calls.set(self.calls.get() + 1);
        buf.extend_from_slice(&self.chunks[j]);
    }
}

/// seq <name> then per add_argument call: <nchunks> <hex chunk>...  Prints add{i}=ok|err and cmd{i}=<wire of a clone>.
pub fn seq(a: &[String]) {
    let name = String::from_utf8(args_bytes(&a[0..1])[0].clone()).unwrap();
    let mut cmd = match Command::build(&name) { Ok(c) => c, Err(_) => { println!("build=err"); return; } };
    println!("build=ok");
    let mut i = 1;
    let mut k = 0;
    while i < a.len() {
        let n: usize = a[i].parse().unwrap();
        let chunks = args_bytes(&a[i + 1..i + 1 + n]);
        i += 1 + n;
        let arg = Scripted { chunks, calls: std::cell::Cell::new(0) };
        match cmd.add_argument(&arg) { Ok(()) => println!("add{k}=ok"), Err(_) => println!("add{k}=err") }
        println!("calls{k}={}", arg.calls.get());
        let mut c = conn();
        c.send(cmd.clone()).expect("send");
        println!("cmd{k}={}", hex(&c.into_inner().out));
        k += 1;
    }
}

/// A typed command whose request is `c<k>` and whose response is the `id` field of the frame it is given.
#[derive(Clone)]
struct Tagged(u8);
impl mpd_client::commands::Command for Tagged {
    type Response = (u8, String);
    fn command(&self) -> Command { Command::new(std::str::from_utf8(&[b'c', b'a' + self.0]).unwrap()) }
    fn response(self, mut frame: mpd_protocol::response::Frame) -> Result<Self::Response, mpd_client::responses::TypedResponseError> {
        Ok((self.0, frame.get("id").unwrap_or_default()))
    }
}

fn frames_for(n: usize) -> Vec<mpd_protocol::response::Frame> {
    let mut wire = b"OK MPD 0.23.5\n".to_vec();
    let mut body = Vec::new();
    for i in 0..n { body.extend_from_slice(format!("id: {i}\nlist_OK\n").as_bytes()); }
    body.extend_from_slice(b"OK\n");
    let mut c = Connection::connect(Pipe { segs: vec![std::mem::take(&mut wire), body], next: 0, out: Vec::new(), reads: 0 }).unwrap();
    let r = c.receive().unwrap().unwrap();
    r.into_iter().map(|f| f.unwrap()).collect()
}

fn show_list(l: Option<CommandList>) {
    match l {
        None => println!("list=none"),
        Some(l) => { let mut c = conn(); c.send_list(l).unwrap(); println!("wire={}", hex(&c.into_inner().out)); }
    }
}

/// typed tuple <n> | typed vec <n> : request bytes of the typed list and the (command, frame id) pairing of its responses
pub fn typed(a: &[String]) {
    use mpd_client::commands::CommandList as TL;
    let n: usize = a[1].parse().unwrap();
    let t = |i: u8| Tagged(i);
    let show = |v: Vec<(u8, String)>| { for (k, id) in v { println!("pair={k}:{id}"); } };
    if a[0] == "vec" {
        let v: Vec<Tagged> = (0..n as u8).map(t).collect();
        show_list(v.command_list());
        show(v.responses(if n == 0 { Vec::new() } else { frames_for(n) }).unwrap());
        return;
    }
    macro_rules! tup { ($($i:expr),+) => {{
        let l = ($(t($i),)+);
        show_list(l.command_list());
        let r = l.responses(frames_for(n)).unwrap();
        tup!(@show r; $($i),+);
    }};
    (@show $r:ident; $a:expr) => { show(vec![$r.0]) };
    (@show $r:ident; $a:expr, $b:expr) => { show(vec![$r.0, $r.1]) };
    (@show $r:ident; $a:expr, $b:expr, $c:expr) => { show(vec![$r.0, $r.1, $r.2]) };
    (@show $r:ident; $a:expr, $b:expr, $c:expr, $d:expr) => { show(vec![$r.0, $r.1, $r.2, $r.3]) };
    (@show $r:ident; $a:expr, $b:expr, $c:expr, $d:expr, $e:expr) => { show(vec![$r.0, $r.1, $r.2, $r.3, $r.4]) };
    (@show $r:ident; $a:expr, $b:expr, $c:expr, $d:expr, $e:expr, $f:expr) => { show(vec![$r.0, $r.1, $r.2, $r.3, $r.4, $r.5]) };
    (@show $r:ident; $a:expr, $b:expr, $c:expr, $d:expr, $e:expr, $f:expr, $g:expr) => { show(vec![$r.0, $r.1, $r.2, $r.3, $r.4, $r.5, $r.6]) };
    (@show $r:ident; $a:expr, $b:expr, $c:expr, $d:expr, $e:expr, $f:expr, $g:expr, $h:expr) => { show(vec![$r.0, $r.1, $r.2, $r.3, $r.4, $r.5, $r.6, $r.7]) };
    }
    match n {
        1 => tup!(0), 2 => tup!(0, 1), 3 => tup!(0, 1, 2), 4 => tup!(0, 1, 2, 3), 5 => tup!(0, 1, 2, 3, 4),
        6 => tup!(0, 1, 2, 3, 4, 5), 7 => tup!(0, 1, 2, 3, 4, 5, 6), 8 => tup!(0, 1, 2, 3, 4, 5, 6, 7),
        _ => panic!("arity"),
    }
}
