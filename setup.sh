#!/bin/bash
# One-time, offline: warm the build caches the checks use (dependencies of the shim workspace for the MIR dumps and the
# native replay executor).  Every check rebuilds what depends on /repo from its current working tree anyway.
set -e
here="$(cd "$(dirname "$0")" && pwd)"
export CARGO_NET_OFFLINE=true
mkdir -p "$here/.scratch"
cp /repo/Cargo.lock "$here/ws/replay/Cargo.lock"
(cd "$here/ws/replay" && CARGO_TARGET_DIR="$here/.scratch/replay-target" cargo build --offline --quiet 2>"$here/.scratch/build.log" || { cat "$here/.scratch/build.log"; exit 1; })
(cd "$here/ws/replay" && CARGO_TARGET_DIR="$here/.scratch/replay-target-small" cargo build --offline --quiet --features small 2>"$here/.scratch/build.log" || { cat "$here/.scratch/build.log"; exit 1; })
(cd "$here/ws/replay" && CARGO_TARGET_DIR="$here/.scratch/replay-target-chrono" cargo build --offline --quiet --features chrono 2>"$here/.scratch/build.log" || { cat "$here/.scratch/build.log"; exit 1; })
(cd "$here/ws" && CARGO_TARGET_DIR="$here/.scratch/ws-target" cargo +nightly build --offline --quiet -p mpd_client 2>"$here/.scratch/build.log" || { cat "$here/.scratch/build.log"; exit 1; })
(cd "$here/ws" && CARGO_TARGET_DIR="$here/.scratch/ws-target" cargo +nightly build --offline --quiet -p mpd_client --features chrono 2>"$here/.scratch/build.log" || { cat "$here/.scratch/build.log"; exit 1; })
python3-vt -c "import z3; print('z3', z3.get_version_string())"
echo setup ok
